"""what MANIFEST.json claims, per property (kept next to the code that implements it)"""
NOTES = ('Technique family: static analysis only. Every check recompiles /repo\'s working tree to LLVM IR (clang-14 -O0 + mem2reg, '
         'the repo\'s own flags) in a scratch directory and decides structural clauses of the property; exit 0 pass, 1 violation, '
         '2 analysis broken (anchor vanished / undecidable form). Clauses that quantify over runtime values are not decided and are '
         'listed in each level_note and in DESIGN.md §4.')
CHECKS = {
 'C07': dict(
  technique='compile-time layout witnesses (_Static_assert) + who-may-write effect analysis over LLVM IR',
  text='Decides, for the current tree and every function of the build: header layout (all offsets/sizes/signedness/magic) by '
       'compile-time witness; that only the helper setters and add_fragment_metadata store into fragment headers and that the '
       'encode path stores every field; that both metadata-CRC sites cover (&hdr->meta, 59) and nothing is stored after sealing; '
       'that all k+m fragments get one size.',
  note='Structural necessary conditions only: byte-for-byte equality with an independent serializer (parity bytes, payload '
       'contents) is a runtime-value statement and is NOT decided. Trusted: clang-14 ABI for the configured target, the IR loader.'),
}
CHECKS['C18'] = dict(
  technique='interprocedural lockset (must/may held locks) over LLVM IR with slot-resolved call graph',
  text='Schedule-independent decision for every access site of the build: all loads/stores of the instance registry '
       '(active_instances, next_backend_desc, ec_backend.link/idesc) reachable from the 16 public entry points hold '
       'active_instances_rwlock (stores in write mode); all accesses to the GF-table refcount and all table-pointer stores hold the '
       'module mutex; no path returns holding an acquired lock.',
  note='Decides data-race freedom of the registry and the shared tables only. NOT decided: results equal sequential results, '
       'atomicity of multi-step operations, races inside external plug-ins. Assumes loader ctor/dtor are single-threaded and '
       'table readers run under an instance that holds a table reference.')
CHECKS['C13'] = dict(
  technique='null-check dominance, dominating-guard bound implication and divisor-shape rules over LLVM IR',
  text='For all 16 prototypes of erasurecode.h and every pointer parameter: each dereference (also in callees and shared cleanup '
       'blocks) is dominated by a non-null edge and the null edge returns a negative constant; every descriptor look-up is tested '
       'and refuses with an error; destination index / fragment length / fragment count are range-checked before the first consumer; '
       'the guards dominating instance allocation imply k>=1, m>=0, k+m<=32, id<EC_BACKENDS_MAX (RS: m>=1, ISA-L: whole-byte w>=8); '
       'every front-end divisor is built from k and the byte word size.',
  note='Does NOT decide absence of all arithmetic/memory faults on accepted instances (needs value ranges of every size expression); '
       'allocation-failure paths are outside the quantifier. The XOR shape whitelist is decided under C05.')
NOT_APPLICABLE = {}
