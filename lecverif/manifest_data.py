"""what MANIFEST.json claims, per property (kept next to the code that implements it)"""
NOTES = ('Technique family: static analysis only. Every check recompiles /repo\'s working tree to LLVM IR (clang-14 -O0, then opt-14 sroa/mem2reg/instsimplify/early-cse/full unrolling of constant loops up to 6 iterations/jump-threading/simplifycfg, member-wise splitting of local structs, folding of constant-table loads; functions the rules do not know by name are inlined first, '
         'the repo\'s own flags, all 22 compile commands of the four libraries) in a scratch directory and decides structural clauses '
         'of the property with repository-specific rules; exit 0 pass, 1 violation (VIOLATION line + report file), 2 analysis broken '
         '(anchor vanished / undecidable form / instance count below the confirmed minimum). Clauses that quantify over runtime values '
         'are not decided; they are listed in each level_note and in DESIGN.md section 4. No check executes library code; '
         'replays/ holds triage programs that no registered check runs.')
_T = 'Trusted: clang-14 front end and the named opt-14 canonicalisation passes, the textual IR loader, debug-info field/enumerator names, the external contract table (libc, zlib, pthread, dl*, ISA-L).'
CHECKS = {
 'C01': dict(
  technique='loop/cursor dataflow rules and pointer-provenance rules over LLVM IR',
  text='Decides structural preconditions of the round trip: in the split loop of encode and the reassembly loop of decode the bytes copied, '
       'the cursor advance and the decrement of the remaining length are one SSA value equal to min(remaining, payload size) (also in affine '
       'form, with a wrap-around test for unsigned remainders); every fragment handed to the SIMD/GF kernels is freshly allocated 16-byte '
       'aligned or passed is_addr_aligned(.,16); replacement copies of unaligned fragments copy header+payload into a buffer of matching size.',
  note='The property as stated (decoded bytes == input for all data, lengths, erasure sets, permutations) is a runtime-value statement and is NOT decided. ' + _T),
 'C02': dict(
  technique='constant return propagation, sentinel guard dominance, refusal-chain (may-fail result use) analysis with single-value abstract simulation',
  text='Decides: beyond-tolerance arms of the XOR decoder/planner return negative; the -1 sentinel of the parity search is tested before use; '
       'in the decode/reconstruct/fragments_needed cones every fallible result is returned or tested with a failing edge that returns negative; '
       'every backend operation result in the front end is tested and failure returns an error with outputs untouched; header-derived indexes '
       'carry two-sided dominating bounds and more than m missing fragments is refused.',
  note='NOT decided: in-bounds reads/writes in general (value ranges through the plug-in boundary), exactness of recovered bytes. Two RS adapter call edges are '
       'exempt by name because the front-end check decided by R02d pre-empts their only failure; numeric -1 sentinels of the GF kernels are exempt (MDS fact of C04). ' + _T),
 'C03': dict(
  technique='dominating-guard bound implication, effect analysis, argument-role and ordering rules over LLVM IR',
  text='Decides: destination_idx is checked 0 <= idx < k+m before every use and refusals return errors; a supplied destination is copied out '
       'untouched; the rebuilt header comes from add_fragment_metadata with destination_idx, the sizes returned by prepare_fragments_for_decode, '
       'the instance ct and checksum on, applied after the successful backend call and before the copy-out; the reconstruct cone propagates '
       'failures; the XOR reconstruct falls back to the full decoder with the complete erasure list.',
  note='NOT decided: byte identity of the rebuilt payload (runtime values). ' + _T),
 'C04': dict(
  technique='constant extraction from IR, region-coverage loop rules, write-effect analysis',
  text='Decides only the field definition and write protection: reduction polynomial 0x1100b / bit 16, table sizes and centre pointer, w = 16 '
       'stored unconditionally in descriptor and args, 16-bit host-order words; region_xor/region_multiply process every byte (wide loop over '
       'blocksize/W plus a tail with the same modulus); the generator matrix is stored once and never written by the coders.',
  note='Almost all of C04 is numerical and NOT decided: generator == closed form, MDS property, parity bytes; a changed evaluation point or dropped '
       'normalisation is not detected. ' + _T),
 'C05': dict(
  technique='constant propagation of every (k,m,hd) through the whitelist with loads resolved in table initialisers; exhaustive GF(2) rank/weight enumeration; index-space type inference; switch/arm structure rules',
  text='Decides exhaustively for the constant tables of the current tree: accepted set == shapes with in-bounds non-null tables of lengths (m,k); '
       'parity/data bitmaps are transposes; every erasure set smaller than hd leaves rank k (thorough: up to m); peelability facts; index-space '
       'typing of all XOR index values; failure-pattern switches exhaustive with the transition function derived from enumerator names and matching '
       'decoder arms; beyond-tolerance arms refuse; -1 sentinels tested; the XOR kernel covers every byte (both build flavours in the thorough tier); '
       'the reconstruct fallback passes the full erasure list.',
  note='NOT decided: correctness of the three peel decoders as algorithms, XOR arithmetic itself, "for every payload length" beyond kernel coverage. ' + _T),
 'C06': dict(
  technique='refusal-chain analysis, forward influence (taint) analysis, must-pass-through and return-structure rules, sibling expression agreement',
  text='Decides: the fragments_needed cone propagates failures; index spaces of the XOR planners; both input lists influence the stores into '
       'fragments_needed[] in RS, ISA-L and XOR planners; count == k is tested after every append before the loop can end, that edge stores the '
       'terminator at [count] and is the only source of 0; stored indexes are < k+m; XOR success paths store the terminator; planner and decoder '
       'agree on the P-xor-Q equation.',
  note='NOT decided: sufficiency/minimality of the returned set and its disjointness from excluded indexes in general (rank condition on runtime lists). ' + _T),
 'C07': dict(
  technique='compile-time layout witnesses (_Static_assert) + who-may-write effect analysis over LLVM IR',
  text='Decides: header layout (all offsets/sizes/signedness/magic/version macro) by compile-time witness with the repo flags; only the helper '
       'setters and add_fragment_metadata store into fragment headers and the encode path stores every field; both metadata-CRC sites cover '
       '(&hdr->meta, 59) with seed 0 and nothing is stored after sealing; all k+m fragments get one size.',
  note='NOT decided: byte-for-byte equality with an independent serializer (parity bytes, payload contents), host endianness. ' + _T),
 'C08': dict(
  technique='sibling cross-check of op-slot functions, def-use pattern rules, expression-tree extraction evaluated on a residue-covering grid',
  text='Decides: per backend the element_size slot and the word size left in args.w denote the same quantity (constant stored unconditionally, or '
       'descriptor field copied from args.w); fragment-size query and encode both use get_aligned_data_size(instance,len)/k plus the backend metadata '
       'size of that quotient; minimum size == aligned(desc,1); the round-up expressions of helper and public query equal ceil(len/a)*a on a grid '
       'covering every residue class and their alignment operand is k*(w/8).',
  note='NOT decided: truncation for lengths beyond INT_MAX; the rounding identity is decided on a grid over the extracted expression (argued, not proved, beyond it). ' + _T),
 'C09': dict(
  technique='path-obligation checking over all acyclic paths of the predicate, loop-structure and dominance rules, transitive write-effect analysis',
  text='Decides for is_invalid_fragment_header: version 0 invalid; magic native or swapped; swapped paths use byte-swapped version and checksum; '
       'no-checksum acceptance only below 1.2.0; otherwise a full 32-bit equality with crc32/crc32_alt over (&meta,59); both unequal invalid. '
       'Validation of every supplied fragment dominates the first consumer in decode/reconstruct/metadata query with -EBADHEADER on failure and no '
       'other loop exit; helper getters read metadata only behind a native magic test; validation has no write effect on the fragment.',
  note='NOT decided: correctness of zlib crc32; the "damaged bytes still satisfy the checksum" clause is probabilistic. ' + _T),
 'C10': dict(
  technique='path-obligation checking, environment-predicate decision by equivalence-class representatives, constant-table regeneration',
  text='Decides: writer passes one value as payload size and checksum length; each CRC call covers (fragment+80, blocksize) with seed 0 and is '
       'stored into chksum[0] with type/mismatch fields; both sites reading LIBERASURECODE_WRITE_LEGACY_CRC implement the documented predicate '
       '(unset, "", "0" standard; else historical; strcmp forms understood); verifier clears the mismatch flag only under a true 32-bit equality '
       'and raises it when both CRCs differ, over (fragment+80, returned size); validation rejects a set flag; crc32_tab equals the regenerated '
       'table and the historical CRC fetches a signed byte with the sign-extending shift.',
  note='NOT decided: zlib crc32 itself; bit-exactness of the historical update expression beyond the listed constants. ' + _T),
 'C11': dict(
  technique='type-resolved per-field store rule from debug info, path obligations, merge-point reachability',
  text='Decides: in the swapped-magic region every multi-byte member of fragment_metadata (each chksum[] element through its full loop) is stored '
       'exactly once as bswapN(same member) with N = member width and no truncation, no one-byte member is stored; header validation uses '
       'byte-swapped references on swapped paths; checksum dispatch and CRC inputs are read from the returned copy after the native/swapped paths merge.',
  note='Almost entirely structural; correctness of the bswap primitives themselves is assumed (llvm.bswap / repo fallback recognised by name and width). ' + _T),
 'C12': dict(
  technique='path-obligation checking, op-table/global-initialiser consistency, single-value abstract simulation of the verdict',
  text='Decides: valid verdicts require an unsigned (or two-sided signed) idx < k+m, backend id equality and a true is_compatible_with(version); '
       'is_invalid_fragment(_metadata) return valid only after instance found, native header, version <= LIBERASURECODE_VERSION (constant checked by '
       'witness), metadata query == 0, verdict == 0 exactly, chksum_mismatch != 1; op tables complete, each is_compatible_with compares with its own '
       'backend version, ec_backends_supported[i]->id == i; stripe verification returns the first negative verdict at once and 0 otherwise.',
  note='NOT decided: behaviour on non-host-order headers beyond C09. ' + _T),
 'C13': dict(
  technique='null-check dominance, dominating-guard bound implication and divisor-shape rules over LLVM IR',
  text='For all 16 prototypes of erasurecode.h and every pointer parameter: each dereference (also in callees and shared cleanup blocks) is '
       'dominated by a non-null edge and the null edge returns a negative constant; every descriptor look-up is tested and refuses with an error; '
       'destination index / fragment length / fragment count are range-checked before the first consumer; the guards dominating instance '
       'allocation imply k>=1, m>=0, k+m<=32, id<EC_BACKENDS_MAX (RS: m>=1, ISA-L: whole-byte w>=8); every front-end divisor is built from k and '
       'the byte word size.',
  note='NOT decided: absence of all arithmetic/memory faults on accepted instances (needs value ranges of every size expression). The XOR shape whitelist is '
       'decided under C05. Two null-tolerant APIs are listed by name with reasons. ' + _T),
 'C14': dict(
  technique='allocator-shape rule, lockset, ordering/dominance rules, who-may-write analysis, path-sensitive reference-count dataflow',
  text='Decides: descriptor allocator increments, clamps to 1 and returns only a value the registry does not hold; registry stores hold the write '
       'lock; destroy order exit/close -> unregister -> free on rc==0; registration only after handle and descriptor are non-NULL, refusals negative; '
       'every descriptor look-up is tested; instance/descriptor state is stored only during create/init/register/unregister/close; RS init holds '
       'exactly one table reference on success and none on failure, exit drops one, tables are freed only at count 0.',
  note='NOT decided: behaviour over histories as such (uniqueness after wrap, destruction orders) - only through these invariants. ' + _T),
 'C15': dict(
  technique='transitive effect analysis (writes-through, frees, global stores) over the slot-resolved call graph; guard-correspondence rule',
  text='Decides: validation/metadata query/encode have no write effect on their inputs; prepare_fragments_for_decode never frees or writes through '
       'caller fragments; the built-in RS decoder writes data[x]/parity[y] only under _missing[x]/_missing[k+y] and reconstruct only the destination; '
       'fragment buffers are zero-filled over their full size; no function in the operation cones stores to a global/static and the only getenv is '
       'LIBERASURECODE_WRITE_LEGACY_CRC.',
  note='NOT decided: in-bounds reads; write-freedom of XOR/ISA-L decoders w.r.t. caller fragments in general; cross-thread determinism beyond C18. ' + _T),
 'C16': dict(
  technique='ownership typestate dataflow per allocation site with interprocedural summaries; bit/guard correspondence rules; sibling init/exit comparison',
  text='Decides for ~90 allocation sites in scope: no path returns with an owned object, frees twice or uses after free; realloc_bm protocol (right bit '
       'set for each fresh buffer, exactly the flagged entries freed on every exit); encode_cleanup frees k+m elements and both arrays; each backend '
       'exit releases what init acquired; a callee that frees a parameter on its error path is not followed by a second free in the caller.',
  note='NOT decided: statements over call histories (dangling pointers kept by the caller), heap state. ' + _T),
 'C17': dict(
  technique='single-value abstract simulation of operation results, must-pass-through ordering rules, ownership typestate on failure paths',
  text='Decides: each of the five backend operation results is tested and failure returns a negative value without touching outputs; init failure '
       'closes the dl handle then frees the instance; encode failure restores fragment pointers before cleanup; no leak on any path of the entry '
       'points; adapters propagate failures of their built-ins.',
  note='NOT decided: "subsequent calls behave normally" beyond C14 R14e (no instance state is written by operations). ' + _T),
 'C18': dict(
  technique='interprocedural lockset (must/may held locks) over LLVM IR with slot-resolved call graph',
  text='Schedule-independent decision for every access site of the build: all loads/stores of the instance registry (active_instances, '
       'next_backend_desc, ec_backend.link/idesc) reachable from the 16 public entry points hold active_instances_rwlock (stores in write mode); '
       'all accesses to the GF-table refcount and all table-pointer stores hold the module mutex; no path returns holding an acquired lock.',
  note='Decides data-race freedom of the registry and the shared tables only. NOT decided: results equal sequential results, atomicity of multi-step '
       'operations, races inside external plug-ins. Assumes loader ctor/dtor are single-threaded and table readers hold a table reference. ' + _T),
 'C19': dict(
  technique='failure-edge reachability, sibling loop-predicate agreement, dlsym null-test rule, cursor-advance rule, plus shared ownership/planner rules',
  text='Decides for the ISA-L adapters (never executed by the suite): inversion failure / too few survivors return negative without reaching table '
       'expansion or encode; row selection and buffer selection take index i iff bit i clear, ascending, capped at k; every dlsym result is null-tested; '
       'both cursors of get_inverse_rows advance; planner rules; ownership typestate and exit-mirrors-init; op tables; word-size guard.',
  note='NOT decided: numerical correctness of matrix selection, inverse-row synthesis, table expansion; anything inside ISA-L (contracts only). ' + _T),
 'C20': dict(
  technique='provenance and control-dependence rule on the fragment list reaching each consumer, plus the C12 path obligations',
  text='Decides: on paths with force_metadata_checks set every consumer of fragment contents (fast path and partition) receives a list whose '
       'every element store is control-dependent on is_invalid_fragment(desc, that element) == 0, indexed by the running count of such stores, with '
       'that count passed alongside; never the caller\'s unfiltered list; the verdict function carries the full validation pipeline obligations.',
  note='NOT decided: that decoding the remaining fragments is correct (C01). ' + _T),
}
NOT_APPLICABLE = {}


# clauses added after the second wave of seeded changes (rules are described in DESIGN.md section 8.5)
ADDED = {
 'C01': 'Also: the data-fragment count gating the copy-out path of decode is incremented only when an empty slot is filled (R01e); the allocation '
        'wrappers return NULL only after a failed allocation or for a negative size, so 0-byte objects are served (R01f); the stores of the XOR and '
        'RS block kernels tile [0, blocksize) exactly, decided as polynomial identities over loop recurrences (R01d).',
 'C02': 'Also: the built-in RS decode/reconstruct refuse only when the missing count is >= m+1 - the premise under which their adapters may drop the '
        'result (R02f); XOR index-space typing (R05e, shared with C05).',
 'C03': 'Also: bitmaps assembled from index lists in loops accumulate (R05i); every copy-out reachable from the backend call passes the serializer.',
 'C04': 'Also: every row walk of the generator construction starts at column 0 and visits k columns, helper walks run their count parameter (R04e); '
        'the GF tables are completed inside the mutex (R18b, shared with C18).',
 'C05': 'Also: bitmap accumulation (R05i).',
 'C06': 'Also: list bitmaps (int shift, sign-extending at index 31) are consumed only by single-bit tests (R06f); the XOR solvers receive '
        'missing-element lists extracted from the merged requested+excluded list (R06g).',
 'C07': 'Also: kernel tiling (R01d) and word-size agreement (R08a) are shared here because parity bytes and fragment geometry depend on them.',
 'C08': 'Also: size queries test the descriptor look-up before use (R13b, shared).',
 'C09': 'Also: the historical CRC function is decided by evaluating its IR update step on all byte values (R10d, shared with C10).',
 'C10': 'R10d now evaluates the loop-carried update expression of liberasurecode_crc32_alt (extracted from the IR) for 256 byte values x 38 register '
        'values against the reference step, instead of matching its shape.',
 'C11': 'Also: after the magic is accepted, native and opposite-endian paths of the metadata query return the same set of values (R11e); R10d shared.',
 'C12': 'Also: helper getters accept native-order headers only (R09d, shared) and the rebuilt fragment\'s checksum is taken after the backend wrote the payload (R10e, shared).',
 'C14': 'Also: the registry search returns NULL only after the whole list and an entry only under idesc == desc (R14i); reference counting of the GF '
        'tables is path-sensitive through the wrappers and the counter update is decided as a value function (R14f).',
 'C15': 'Also: supplied destination fragments are copied out, never rewritten (R03b/R03c shared); GF table reference counting (R14f shared).',
 'C16': 'Also: GF table reference counting (R14f shared).',
 'C17': 'Also: GF table reference counting on failing creates (R14f shared) and lock release on every path (R18d shared).',
 'C18': 'Also: a pointer read from the registry list is not used for list surgery after the lock was released and re-taken (R18e).',
 'C19': 'Also: list bitmaps consumed only by single-bit tests (R06f).',
 'C20': 'Also: exact index test of the metadata verifier (R12a shared).',
}
ADDED3 = {
 'C01': 'Third wave: the copy position must be a true recurrence (no per-iteration quantity as a factor); R04a shared.',
 'C02': 'Third wave: R15e and R03b/R03c shared.',
 'C04': 'Third wave: kernel tiling also checks each way round a loop separately (a path that advances the element index without writing is a hole).',
 'C05': 'Third wave: scalar parameters used as parity-relative / bit positions type their call-site arguments (x - m is not a conversion); decode / reconstruct '
        'operations do not write through the erasure list (R15f).',
 'C06': 'Third wave: the two-data planner hands on the element it did not plan (R06h, constant propagation over a concrete two-element list); R05f shared. '
        'R06i: every search for a connected parity counts the element it asks about among the missing data (reported defect F19, repaired).',
 'C07': 'Third wave: R10a and R15d shared (checksum bytes and history independence of header bytes).',
 'C10': 'Third wave: R12d shared.',
 'C12': 'Third wave: the metadata backend_version is judged only by ops->is_compatible_with (R12e); R09b shared.',
 'C13': 'Third wave: ownership typestate R16a shared (a refused create keeps nothing allocated).',
 'C14': 'Third wave: unregister overwrites only a pointer that was compared equal to the removed instance (R14j).',
 'C15': 'Third wave: XOR decode / reconstruct write only buffers of missing elements or local scratch (R15g); erasure list read-only (R15f); R11c shared.',
 'C16': 'Third wave: the typestate resolves returned merges per edge and conditional expressions with a NULL arm, reports may-double-free; an error return hands no '
        'allocation out through an output parameter (R16f); after a successful backend init every non-registering path calls the exit op (R16g).',
 'C17': 'Third wave: R16a, R16f, R16g shared.',
 'C18': 'Third wave: no global is written while the registry lock is held in read mode only (R18f); R15d shared.',
 'C19': 'Third wave: decode / reconstruct hand their own erasure list to every helper (R19g); inversion failure followed by value (R19a).',
 'C20': 'Third wave: R10b and R03c shared.',
}
ADDED4 = {
 'C01': 'Fourth wave: the alignment test is recognised by what it computes ((address & 15) == 0 on a conditional branch), not by the helper it calls; R20c/R20d shared.',
 'C04': 'Fourth wave: the GF multiplication returns a constant only where an operand is 0, and then 0 (R04g).',
 'C05': 'Fourth wave: kernel tiling (R05g) is decided for the portable build flavour in the quick tier as well.',
 'C06': 'Fourth wave: a bitmap of fragment indexes is never tested with the position in a -1 terminated list, and the taint follows the bitmap into helpers that receive it (R06f); '
        'the value the single-data shortcut reports for "no local parity" is the one the fallback test compares with (R06j).',
 'C07': 'Fourth wave: every successful path of add_fragment_metadata stores the instance checksum type, and computes the payload checksum whenever the type is CRC32 (R10f).',
 'C10': 'Fourth wave: R10f (see C07).',
 'C13': 'Fourth wave: an out-parameter is written before any path reads it (R13g).',
 'C14': 'Fourth wave: every entry point that takes a descriptor looks it up on every path that returns a non-negative value (R14k).',
 'C16': 'Fourth wave: encode_cleanup walks the parity array m times and the data array k times (R16c over trip counts).',
 'C18': 'Fourth wave: no call that transitively acquires the registry lock is made while it is held (R18g).',
 'C19': 'Fourth wave: R19c/R19f/R19g do not depend on helper names or signatures (the row combination is recognised by the call through gf_mul; bitmaps may be parameters).',
 'C20': 'Fourth wave: the loop that collects checksum-valid fragments visits all num_fragments entries (R20c) and its scratch list is sized from num_fragments (R20d).',
}
ADDED5 = {
 'C01': 'Fifth wave: header sizes of 0 (empty object) are accepted by prepare_fragments_for_decode (R01g); R14f shared.',
 'C03': 'Fifth wave: the caller\'s output buffer is written only by the final copy-out of fragment_len bytes, never handed to the coders (R03d).',
 'C04': 'Fifth wave: the generator has one construction for every shape: make_systematic_matrix returns what create_non_systematic_vand_matrix built (R04h).',
 'C06': 'Fifth wave: the Reed-Solomon planners are decided as value functions on a (3,2) shape over all pairs of short lists incl. overlapping / duplicated entries (R06m); '
        'an XOR shortcut takes an equation whole only when no member is excluded (R06k).',
 'C08': 'Fifth wave: R08d is a value function - both size functions evaluated (constant propagation) for k in 1..12, w in {8,16,32} and every residue class of len.',
 'C09': 'Fifth wave: get_fragment_partition ends with an error when the index helper answers "not a fragment" (R09e); R01g shared.',
 'C12': 'Fifth wave: a compatibility predicate that is not the plain equality is decided by value: it accepts exactly the backend\'s own version (R12c).',
 'C13': 'Fifth wave: every use of the caller\'s fragments in decode / reconstruct (not only the named consumers) is dominated by fragment_len >= 80 (R13c); R01f shared.',
 'C14': 'Fifth wave: every global that register points at an instance is maintained by unregister (R14l); allocator and look-up decided against concrete registries '
        '(descriptors 5 -> 11 -> 7) when the search is written out in place (R14a, R14i).',
 'C16': 'Fifth wave: the typestate resolves merged pointers per edge (a merge that received NULL along an edge does not denote the allocation on that path).',
 'C18': 'Fifth wave: nothing is written through xor_code_t.parity_bms / data_bms: the equation tables are shared by all instances of a shape (R18h).',
 'C19': 'Fifth wave: isa_l_min_fragments decided as a value function (R06m).',
}
ADDED6 = {
 'C02': 'Sixth wave: lists of missing elements / indexes have room for every entry plus the terminator (R02g); the adapters of the built-in codes forward every request to the coder and leave the buffers alone (R02h).',
 'C04': 'Sixth wave: coefficient rows of reconstruct are inverse rows or freshly zeroed local rows (R04i); R02h shared.',
 'C05': 'Sixth wave: fast_memcpy copies exactly size bytes (R05g); with parities erased the data decoders never get a NULL missing-parity list (R05f); R02h, R01b shared.',
 'C08': 'Sixth wave: get_fragment_size is header + stored sizes for every size incl. 0 (R08e, value function); R14a shared.',
 'C09': 'Sixth wave: every call that receives one of the caller\'s fragments counts as a consumer that header validation must dominate (R09a).',
 'C11': 'Sixth wave: the raw libec_version is compared with anything but 0 only where the header is known to be in host order (R11f).',
 'C13': 'Sixth wave: ec_backends_supported[] is used only below EC_BACKENDS_MAX or after a NULL test of the entry (R13i).',
 'C14': 'Sixth wave: the allocator has no non-positive return value (R14a); outside init / exit nothing is written through pointers loaded from descriptor members (R14e).',
 'C16': 'Sixth wave: in backend inits a member of the malloc\'ed descriptor is read only after it was stored on that path (R16h).',
 'C18': 'Sixth wave: the library\'s locks are acquired with blocking calls only (R18i).',
 'C19': 'Sixth wave: inside the column loop of get_inverse_rows the rows are only XOR-accumulated (R19h).',
}
ADDED7 = {
 'C01': 'Seventh wave: prepare_fragments_for_decode refuses a header size only for being negative (R01g, every refusing comparison on a size is against 0); R02i, R06f shared.',
 'C02': 'Seventh wave: decode / reconstruct / fragments_needed refuse only over their arguments, k, m, local counts and verdicts of callees (R02i); fragments_to_string files a fragment under its own header index (R02j).',
 'C04': 'Seventh wave: RS encode - each parity buffer is cleared whole and filled by region_dot_product(data, parity[j], row k+j, k, blocksize), nothing else writes it (R04j); helper walks stated as the set of cells written (R04e); the GF table loop followed on a grid of elements (R04a).',
 'C05': 'Seventh wave: xor_reconstruct_one uses the very equation index_of_connected_parity selected (R05j); the tables a descriptor points at are never written (R05k).',
 'C06': 'Seventh wave: list bitmaps are consumed bit by bit in the adapters of the external back ends too (R06f over every back end).',
 'C07': 'Seventh wave: instance_create stores no member of the argument block other than member-to-member copies (R07d); R19i shared.',
 'C09': 'Seventh wave: fragments_to_string / get_fragment_partition read the index of every supplied fragment - their loop ends at the count or with an error (R09f).',
 'C10': 'Seventh wave: outside chksum_type == CHKSUM_CRC32 no payload CRC is computed and the mismatch flag is not raised (R10b).',
 'C13': 'Seventh wave: a slot of ec_backends_supported[] is read only for an index confined to the table in the unsigned reading (R13i); output parameters of type char** are covered by R13g.',
 'C14': 'Seventh wave: init / exit of a back end write no global (R14m); R18b shared.',
 'C16': 'Seventh wave: entries of the payload pointer arrays (views into fragments) are never handed to a deallocator (R16i); R13g shared.',
 'C17': 'Seventh wave: ownership typestate over the adapters of the external back ends, whose dlsym-bound entry points borrow their arguments (R17d); R16i shared.',
 'C18': 'Seventh wave: static locks are never destroyed or re-initialised (R18i).',
 'C19': 'Seventh wave: isa_l_encode hands ec_encode_data the block length and the arrays of the request; init expands tables from matrix + k*k (R19i).',
}
ADDED8 = {
 'C02': 'Eighth wave: header indexes validated in an earlier pass over the same list count for the second pass (R02d); R19f shared.',
 'C03': 'Eighth wave: encode and reconstruct hand the serializer the same checksum type, the instance\'s ct as configured (R03c); a supplied destination is followed over feasible paths only (branches on one value are taken consistently); R04a shared.',
 'C04': 'Eighth wave: Vandermonde rows restart their power accumulator at 1 and multiply by the row number (R04k); row walks may be split around the diagonal entry (R04e); R13k shared.',
 'C05': 'Eighth wave: the XOR encoders call the kernel with whole fragments and the blocksize of the request (R05l); fragment subscripts formed by subtraction subtract k (R05m); the classifier is decided as a value function when it is not one loop over a loop-carried pattern (R05f); R03d shared.',
 'C06': 'Eighth wave: fragments_needed_one_data adds the members of the chosen equation on every path that answers 0 (R06n); the Jerasure planners are decided as value functions too (R06m); structural findings of R06d are reconsidered by value before they are reported.',
 'C07': 'Eighth wave: every entry of every flat-XOR equation table equals the reference contents recorded from the pinned tree (R07e); R02h shared.',
 'C08': 'Eighth wave: encode reports the length get_fragment_size reads from a written fragment (R08f); minimum == aligned(1) decided as a value function of (k, element size) (R08c).',
 'C09': 'Eighth wave: a validation loop may have its first iteration peeled off or carry its verdict in a flag that also stops the loop (R09a).',
 'C12': 'Eighth wave: verify_stripe_metadata judges all num_fragments entries (R12d); the index / backend tests may sit in is_invalid_fragment_metadata itself (R12b).',
 'C13': 'Eighth wave: loops bounded by the caller\'s fragment count compare it as a signed value or after it is known non-negative (R13j); no 32-bit shift by the sum of two count parameters (R13k); the ISA-L word-size guard is decided on a grid of values (R13d); R01b shared.',
 'C15': 'Eighth wave: decode / reconstruct / fragments_needed never store into the arrays the caller passes as input (R15h); R14e shared.',
 'C16': 'Eighth wave: R15b shared (prepare_fragments_for_decode frees nothing it recorded in realloc_bm).',
 'C17': 'Eighth wave: init of every back end calls through a descriptor member only after it was stored on that path (R17e); R05m shared.',
}
for _d in (ADDED, ADDED3, ADDED4, ADDED5, ADDED6, ADDED7, ADDED8):
    for _k, _v in _d.items():
        CHECKS[_k]['text'] += ' ' + _v

from .depends import DEPENDS as _DEP
for _k, _lst in _DEP.items():
    _items = [f"{', '.join(rules)} from {mod.upper()} ({why})" for mod, rules, why in _lst if rules]
    if _items:
        CHECKS[_k]['text'] += ' Necessary conditions adopted from other properties\' rule sets (lecverif/depends.py): ' + '; '.join(_items) + '.'
