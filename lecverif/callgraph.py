"""E5 whole-program call graph with slot-resolved indirect calls (never name matching on call sites)."""
import re
from .ir import parse_initializer, split_top, typed_operand, const_gep, INT
from .vflow import access_path, strip_ptr_casts, cname_of, field_names
from .build import AnalysisBroken

OPS_STRUCT = 'ec_backend_op_stubs'

def c_string(prog, expr, mod=None):
    """constant GEP to a string global (private to `mod`) -> python str"""
    cg = const_gep(expr) if isinstance(expr, str) and expr.startswith('getelementptr') else None
    g = cg[1] if cg else (expr if isinstance(expr, str) and expr.startswith('@') else None)
    if not g:
        return None
    for m in ([mod] if mod is not None else prog.mods):
        t = m.globals.get(g)
        if t and 'c"' in t:
            s = t[t.index('c"') + 2:]
            s = s[:s.index('"')]
            s = re.sub(r'\\([0-9A-Fa-f]{2})', lambda mm: chr(int(mm.group(1), 16)), s)
            return s.rstrip('\0')
    return None

class CallGraph:
    def __init__(self, prog):
        self.prog = prog
        self.op_tables = {}        # '@xxx_op_stubs' -> {slot name: '@fn'}
        self.common = {}           # '@backend_xxx' -> dict(id, name, soname, soversion, ops, version)
        self.field_targets = {}    # (struct cname, field) -> set of '@fn' | 'ext:name'
        self.unresolved = []
        self._tables()
        self._field_stores()
        self._table_driven_dlsym()
        self._callees = {}
        self._callers = None

    # ---- op tables and backend commons from global initialisers
    def _tables(self):
        slots = field_names(self.prog, '%struct.' + OPS_STRUCT)
        if not slots:
            raise AnalysisBroken('anchor vanished: struct ec_backend_op_stubs')
        self.slots = slots
        for m in self.prog.mods:
            for g, t in m.globals.items():
                init = parse_initializer(t)
                if init.startswith('%struct.' + OPS_STRUCT + ' {'):
                    body = init[init.index('{') + 1: init.rindex('}')]
                    fns = []
                    for p in split_top(body):
                        _, v = typed_operand(p)
                        fns.append(v)
                    if len(fns) != len(slots):
                        raise AnalysisBroken(f'op table {g}: {len(fns)} entries, struct has {len(slots)} fields')
                    self.op_tables[g] = dict(zip(slots, fns))
                elif init.startswith('%struct.ec_backend_common {'):
                    body = init[init.index('{') + 1: init.rindex('}')]
                    parts = split_top(body)
                    vals = [typed_operand(p)[1] for p in parts]
                    names = field_names(self.prog, '%struct.ec_backend_common')
                    d = dict(zip(names, vals))
                    def cstr(v):
                        if v.startswith('c"'):
                            s = v[2:v.rindex('"')]
                            return re.sub(r'\\([0-9A-Fa-f]{2})', lambda mm: chr(int(mm.group(1), 16)), s).rstrip('\0')
                        return c_string(self.prog, v, m)
                    self.common[g] = {'id': int(d['id']), 'name': cstr(d['name']), 'soname': cstr(d['soname']),
                                      'soversion': cstr(d['soversion']), 'ops': d['ops'],
                                      'ec_backend_version': int(d['ec_backend_version']), 'unit': m.src}

    def slot_functions(self, slot):
        return {g: t[slot] for g, t in self.op_tables.items()}

    # ---- (struct, field) <- function pointers, incl. the dlsym union idiom
    def _field_stores(self):
        P = self.prog
        for m in P.mods:
            for f in m.functions.values():
                for ins in f.insts():
                    if ins.op != 'store':
                        continue
                    root, steps = access_path(P, f, ins.ops[1])
                    fl = [s for s in steps if s[0] == 'field']
                    if not fl:
                        continue
                    key = (fl[-1][1], fl[-1][2])
                    v = ins.ops[0]
                    tgt = None
                    if v.startswith('@') and v in P.fns:
                        tgt = v
                    else:
                        tgt = self._dlsym_source(f, ins, v)
                    if tgt:
                        self.field_targets.setdefault(key, set()).update(tgt.split('|'))

    def _table_driven_dlsym(self):
        """`for (n ...) { addr = dlsym(h, table[n].name); memcpy((char *) desc + table[n].slot, &addr, sizeof addr); }` with a
        constant table of (symbol name, offsetof(descriptor, member)): every entry binds one descriptor member to one symbol"""
        from .ir import parse_const
        c_string_of_expr = lambda P_, e_, m_: c_string(P_, e_, m_)
        P = self.prog
        for m in P.mods:
            for f in m.functions.values():
                for call in [i for i in f.insts() if i.op == 'call' and i.callee == '@dlsym' and len(i.ops) > 1]:
                    nd = f.defs.get(call.ops[1])
                    if nd is None or nd.op != 'load':
                        continue
                    def table_of(ptr):
                        x_, n_ = ptr, 0
                        while n_ < 4:
                            if isinstance(x_, str) and x_.startswith('@'):
                                return x_
                            d_ = f.defs.get(x_)
                            if d_ is None or d_.op not in ('getelementptr', 'bitcast'):
                                return None
                            x_ = d_.ops[0]; n_ += 1
                        return None
                    tab = table_of(nd.ops[0])
                    if tab is None:
                        continue
                    txt = m.globals.get(tab) or ''
                    if not re.match(r'^((internal|private|dso_local|unnamed_addr|local_unnamed_addr)\s+)*constant\b', txt):
                        continue
                    try:
                        pc_ = parse_const(parse_initializer(txt))
                        rows = pc_[1] if isinstance(pc_, tuple) else None
                    except Exception:
                        rows = None
                    if not isinstance(rows, list) or not rows or not all(isinstance(r_, list) and len(r_) == 2 for r_ in rows):
                        continue
                    # the store side: a byte-offset write into a descriptor whose offset is loaded from the same table
                    sname = None
                    for w in f.insts():
                        dst = None
                        if w.op == 'call' and (w.callee or '').startswith('@llvm.memcpy'):
                            dst = w.ops[0]
                        elif w.op == 'store':
                            dst = strip_ptr_casts(f, w.ops[1])
                        dg = f.defs.get(dst) if dst else None
                        if dg is None or dg.op != 'getelementptr' or dg.gep_base_ty != 'i8' or len(dg.ops) != 2:
                            continue
                        od = f.defs.get(dg.ops[1])
                        if od is None or od.op != 'load' or table_of(od.ops[0]) != tab:
                            continue
                        base = strip_ptr_casts(f, dg.ops[0])
                        for bc in f.insts():
                            if bc.op == 'bitcast' and strip_ptr_casts(f, bc.ops[0]) == base and bc.ty and bc.ty.startswith('%struct.') and bc.ty.endswith('*'):
                                sname = bc.ty[len('%struct.'):-1]
                    if sname is None:
                        continue
                    fields = P.struct_fields(sname) or []
                    for name_expr, off in rows:
                        nm = c_string_of_expr(P, name_expr, m) if isinstance(name_expr, str) else None
                        if nm is None or not isinstance(off, int):
                            continue
                        fld = [fn_ for fn_, boff, bsz, _t in fields if boff // 8 == off]
                        if fld:
                            self.field_targets.setdefault((sname, fld[0]), set()).add(('@' + nm) if ('@' + nm) in P.fns else 'ext:' + nm)

    def _dlsym_source(self, f, store_ins, v):
        """value v stored: is it (a load from a local union that last received) a dlsym(h, "name") result?"""
        d = f.defs.get(strip_ptr_casts(f, v))
        if d is None:
            return None
        if d.op == 'call' and d.callee == '@dlsym':
            return self._sym(d)
        if d.op == 'load':
            slot = strip_ptr_casts(f, d.ops[0])
            sd = f.defs.get(slot)
            if sd is None or sd.op != 'alloca':
                return None
            # last store to that slot before the load, same block
            for j in range(d.idx - 1, -1, -1):
                p = d.bb.insts[j]
                if p.op == 'store' and strip_ptr_casts(f, p.ops[1]) == slot:
                    dd = f.defs.get(strip_ptr_casts(f, p.ops[0]))
                    if dd is not None and dd.op == 'call' and dd.callee == '@dlsym':
                        return self._sym(dd)
                    return None
        return None

    def _sym(self, call):
        name = c_string(self.prog, call.ops[1], call.fn.mod)
        if name is None:
            # symbol name handed in as a parameter: collect the constant strings at the call sites
            f = call.fn
            pi = f.param_index(strip_ptr_casts(f, call.ops[1]))
            names = set()
            if pi is not None:
                for m in self.prog.mods:
                    for g in m.functions.values():
                        for i in g.insts():
                            if i.op == 'call' and i.callee == f.name and pi < len(i.ops):
                                n = c_string(self.prog, i.ops[pi], m)
                                if n:
                                    names.add(n)
            if not names:
                return 'ext:<dlsym of a non-constant name>'
            return '|'.join(sorted(('@' + n) if ('@' + n) in self.prog.fns else 'ext:' + n for n in names))
        return '@' + name if ('@' + name) in self.prog.fns else 'ext:' + name

    # ---- resolution
    def callees(self, f, ins):
        """-> list of '@fn' (defined), 'ext:name' or '@external' names ; [] if unresolved"""
        key = id(ins)
        if key in self._callees:
            return self._callees[key]
        res = self._resolve(f, ins)
        self._callees[key] = res
        return res

    def _resolve(self, f, ins):
        c = ins.callee
        if c.startswith('@'):
            return [c]
        d = f.defs.get(strip_ptr_casts(f, c))
        if d is not None and d.op == 'load':
            # a call through a constant table of function pointers (`decoders[n](...)`): any entry of the table
            x_, n_ = d.ops[0], 0
            while n_ < 4 and not (isinstance(x_, str) and x_.startswith('@')):
                dx = f.defs.get(x_)
                if dx is None or dx.op not in ('getelementptr', 'bitcast'):
                    break
                x_ = dx.ops[0]; n_ += 1
            if isinstance(x_, str) and x_.startswith('@') and x_ not in self.prog.fns:
                txt = f.mod.globals.get(x_) or ''
                if re.match(r'^((internal|private|dso_local|unnamed_addr|local_unnamed_addr)\s+)*constant\b', txt):
                    ents = sorted({n2 for n2 in re.findall(r'@[\w.$]+', txt) if n2 in self.prog.fns})
                    if ents:
                        return ents
            root, steps = access_path(self.prog, f, d.ops[0])
            fl = [s for s in steps if s[0] == 'field']
            if fl:
                sname, fname = fl[-1][1], fl[-1][2]
                if sname == OPS_STRUCT:
                    return sorted(set(t[fname] for t in self.op_tables.values()))
                t = self.field_targets.get((sname, fname))
                if t:
                    return sorted(t)
        # function-pointer parameter: resolved from the arguments at the call sites of f (recursively)
        out = self._param_targets(f, strip_ptr_casts(f, c), 0)
        if out:
            return sorted(out)
        self.unresolved.append((f.name, ins.loc))
        return []

    def _param_targets(self, f, v, depth):
        pi = f.param_index(v)
        out = set()
        if pi is None or depth > 4:
            return out
        for g, site in self.callers_of(f.name):
            a = site.ops[pi] if pi < len(site.ops) else None
            if not a:
                continue
            if a.startswith('@') and a in self.prog.fns:
                out.add(a)
                continue
            a = strip_ptr_casts(g, a)
            ad = g.defs.get(a)
            if ad is not None and ad.op == 'load':
                root, steps = access_path(self.prog, g, ad.ops[0])
                fl = [s for s in steps if s[0] == 'field']
                if fl:
                    out |= self.field_targets.get((fl[-1][1], fl[-1][2]), set())
            elif ad is None:
                out |= self._param_targets(g, a, depth + 1)
        return out

    def callers_of(self, name):
        if self._callers is None:
            self._callers = {}
            for m in self.prog.mods:
                for g in m.functions.values():
                    for i in g.insts():
                        if i.op == 'call' and i.callee.startswith('@'):
                            self._callers.setdefault(i.callee, []).append((g, i))
        return self._callers.get(name, [])

    def reachable(self, roots, follow_ext=False):
        """set of defined function names reachable from roots (names with '@')"""
        seen, st = set(), [r for r in roots]
        while st:
            n = st.pop()
            if n in seen or n not in self.prog.fns:
                continue
            seen.add(n)
            f = self.prog.fns[n]
            for i in f.insts():
                if i.op == 'call':
                    for c in self.callees(f, i):
                        if c not in seen:
                            st.append(c)
        return seen

def get(prog):
    cg = prog.__dict__.get('_cg')
    if cg is None:
        cg = CallGraph(prog)
        prog._cg = cg
    return cg
