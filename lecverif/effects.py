"""E6 effect summaries over the call graph: writes-through(param), frees(param), derefs, global reads/writes,
header-field stores, returns-owned.  External functions come from the contract table below; an external that is
not in the table is reported by `unknown_externals` so that a rule whose cone contains it can exit 2."""
import re
from . import callgraph
from .vflow import derived_pointers, access_path, strip_ptr_casts, fields_in_path
from .build import AnalysisBroken
from .ir import INT

# contract table: name -> dict(w=[param idx written through], r=[read through], free=[idx], owned=bool, capt=[idx captured])
EXT = {
    '@llvm.memcpy.p0i8.p0i8.i64': dict(w=[0], r=[1]), '@memcpy': dict(w=[0], r=[1]),
    '@llvm.memset.p0i8.i64': dict(w=[0]), '@memset': dict(w=[0]), '@bzero': dict(w=[0]),
    '@llvm.memmove.p0i8.p0i8.i64': dict(w=[0], r=[1]),
    '@free': dict(free=[0]), '@malloc': dict(owned=True), '@calloc': dict(owned=True), '@strdup': dict(owned=True, r=[0]),
    '@posix_memalign': dict(w=[0]),
    '@crc32': dict(r=[1]), '@strlen': dict(r=[0]), '@getenv': dict(r=[0]), '@memcmp': dict(r=[0, 1]),
    '@syslog': dict(), '@printf': dict(), '@fprintf': dict(), '@openlog': dict(), '@closelog': dict(),
    '@dlopen': dict(r=[0]), '@dlsym': dict(), '@dlclose': dict(), '@dlerror': dict(),
    '@__assert_fail': dict(), '@abort': dict(),
    '@pthread_rwlock_wrlock': dict(w=[0]), '@pthread_rwlock_rdlock': dict(w=[0]), '@pthread_rwlock_unlock': dict(w=[0]),
    '@pthread_mutex_lock': dict(w=[0]), '@pthread_mutex_unlock': dict(w=[0]),
    # ISA-L primitives (documented contracts, isa-l erasure_code.h)
    'ext:ec_encode_data': dict(r=[3, 4], w=[5], deep_w=[5], deep_r=[4]),
    'ext:ec_init_tables': dict(r=[2], w=[3]),
    'ext:gf_invert_matrix': dict(r=[0], w=[0, 1]),
    'ext:gf_mul': dict(),
    'ext:gf_gen_rs_matrix': dict(w=[0]), 'ext:gf_gen_cauchy1_matrix': dict(w=[0]),
    '@llvm.bswap.i32': dict(), '@llvm.bswap.i64': dict(), '@llvm.bswap.i16': dict(),
    '@llvm.x86.sse2.pause': dict(),
}

class Effects:
    def __init__(self, prog):
        self.prog = prog
        self.cg = callgraph.get(prog)
        self._derived = {}
        self._wt = {}
        self._free = {}
        self._gw = None
        self.unknown_externals = set()

    def derived(self, f, pi, deep):
        key = (f.name, pi, deep)
        if key not in self._derived:
            A, slots = derived_pointers(f, [f.params[pi][1]])
            if deep:
                changed = True
                while changed:
                    changed = False
                    for ins in f.insts():
                        if ins.op == 'load' and ins.res not in A and ins.ops[0] in A and ins.ty.endswith('*'):
                            A.add(ins.res); changed = True
                    A2, _ = derived_pointers(f, A)
                    if len(A2) != len(A):
                        A = A2; changed = True
            self._derived[key] = A
        return self._derived[key]

    # ---- writes-through
    def writes_through(self, fname, pi, deep=True, _stack=None):
        """-> list of witness tuples (function name, loc, description); [] if no write is possible"""
        key = (fname, pi, deep)
        if key in self._wt:
            return self._wt[key]
        _stack = _stack or set()
        if key in _stack:
            return []
        _stack = _stack | {key}
        f = self.prog.fns.get(fname)
        if f is None:
            c = EXT.get(fname)
            if c is None:
                self.unknown_externals.add(fname)
                return [(fname, '', 'unknown external: assumed to write')]
            if pi in c.get('w', []):
                return [(fname, '', f'external contract: writes through parameter {pi}')]
            return []
        if pi >= len(f.params) or not f.params[pi][0].endswith('*'):
            return []
        A = self.derived(f, pi, deep)
        wit = []
        for ins in f.insts():
            if ins.op == 'store' and ins.ops[1] in A:
                wit.append((fname, ins.loc, 'store through a pointer derived from parameter %d' % pi))
            elif ins.op == 'call':
                for ai, a in enumerate(ins.ops):
                    if a in A:
                        for c in self.cg.callees(f, ins) or ['<unresolved>']:
                            if c == '<unresolved>':
                                wit.append((fname, ins.loc, 'passed to an unresolved indirect call'))
                                continue
                            sub = self.writes_through(c, ai, deep, _stack)
                            if sub:
                                wit.append((fname, ins.loc, f'passed to {c} argument {ai}: ' + sub[0][2]))
        self._wt[key] = wit
        return wit

    # ---- frees(param)
    def frees(self, fname, pi, _stack=None):
        key = (fname, pi)
        if key in self._free:
            return self._free[key]
        _stack = _stack or set()
        if key in _stack:
            return []
        _stack = _stack | {key}
        f = self.prog.fns.get(fname)
        if f is None:
            c = EXT.get(fname, {})
            return [(fname, '', 'free')] if pi in c.get('free', []) else []
        if pi >= len(f.params) or not f.params[pi][0].endswith('*'):
            return []
        A = self.derived(f, pi, False)
        wit = []
        for ins in f.insts():
            if ins.op == 'call':
                for ai, a in enumerate(ins.ops):
                    if a in A:
                        for c in self.cg.callees(f, ins):
                            if self.frees(c, ai, _stack):
                                wit.append((fname, ins.loc, f'{c}'))
        self._free[key] = wit
        return wit

    # ---- globals
    def global_accesses(self, f):
        """local (non-transitive): [(ins, '@global', 'load'|'store')] for user globals (not strings)"""
        out = []
        for ins in f.insts():
            if ins.op in ('load', 'store'):
                root, steps = access_path(self.prog, f, ins.ops[-1])
                if isinstance(root, str) and root.startswith('@') and not root.startswith('@.str') \
                   and not root.startswith('@__func__') and not root.startswith('@__PRETTY_FUNCTION__'):
                    out.append((ins, root, ins.op))
            elif ins.op == 'call':
                c = EXT.get(ins.callee)
                for ai, a in enumerate(ins.ops):
                    if isinstance(a, str):
                        root, steps = access_path(self.prog, f, a)
                        if isinstance(root, str) and root.startswith('@') and not root.startswith('@.str') \
                           and root not in self.prog.fns and not root.startswith('@__func__') \
                           and not root.startswith('@__PRETTY_FUNCTION__'):
                            if c is not None and ai in c.get('w', []):
                                out.append((ins, root, 'store'))
                            elif c is not None:
                                out.append((ins, root, 'load'))
                            else:
                                out.append((ins, root, 'addr-passed'))
        return out

    def header_field_stores(self, f):
        """local: [(ins, field path tuple)] stores whose address is a field of a fragment header reached from a
        fragment_header_s* (the fragment buffer), as opposed to a caller's fragment_metadata_t copy"""
        out = []
        for ins in f.insts():
            if ins.op != 'store':
                continue
            root, steps = access_path(self.prog, f, ins.ops[1])
            fl = fields_in_path(steps)
            if fl and fl[0][0] == 'fragment_header_s':
                out.append((ins, tuple(x[1] for x in fl)))
        # byte-level writes (`memcpy(buf + offsetof(fragment_header_t, meta.idx), &v, 4)`) into a buffer this function also
        # addresses as a fragment header: the constant offset and size name the field
        bases = {strip_ptr_casts(f, bc.ops[0]) for bc in f.insts() if bc.op == 'bitcast' and bc.ty and 'fragment_header_s*' in bc.ty.replace(' ', '')}
        if bases:
            for ins in f.insts():
                dst = size = None
                if ins.op == 'call' and (ins.callee or '').startswith(('@llvm.memcpy', '@llvm.memset')) and INT.match(ins.ops[2] if len(ins.ops) > 2 else ''):
                    dst, size = ins.ops[0], int(ins.ops[2])
                elif ins.op == 'store' and ins.ty in ('i8', 'i16', 'i32', 'i64'):
                    dst, size = ins.ops[1], int(ins.ty[1:]) // 8
                if dst is None:
                    continue
                x, off, n_ = dst, 0, 0
                d = f.defs.get(x)
                while d is not None and n_ < 8:
                    if d.op == 'bitcast':
                        x = d.ops[0]
                    elif d.op == 'getelementptr' and d.gep_base_ty == 'i8' and len(d.ops) == 2 and INT.match(d.ops[1]):
                        off += int(d.ops[1]); x = d.ops[0]
                    else:
                        break
                    d = f.defs.get(x); n_ += 1
                if x in bases and (off or n_):
                    path = self._field_at('fragment_header_s', off, size)
                    if path and not any(o_ is ins for o_, _ in out):
                        out.append((ins, path))
        return out

    def _field_at(self, cname, byteoff, size, depth=0):
        """name path of the member of struct cname that starts at byte offset `byteoff` and has `size` bytes"""
        fields = self.prog.struct_fields(cname) or []
        for name, boff, bsize, tref in fields:
            lo, hi = boff // 8, (boff + bsize) // 8
            if lo == byteoff and hi - lo == size and not self._struct_of(tref):
                return (name,)
            if lo <= byteoff < hi and depth < 3:
                sub = self._struct_of(tref)
                if sub:
                    rest = self._field_at(sub, byteoff - lo, size, depth + 1)
                    if rest:
                        return (name,) + rest
        return None

    def _struct_of(self, tref):
        for m in self.prog.mods:
            fdesc = m.md_fields(tref) if tref else {}
            n = 0
            while fdesc and fdesc.get('tag') in ('DW_TAG_typedef', 'DW_TAG_const_type', 'DW_TAG_volatile_type') and n < 6:
                fdesc = m.md_fields(fdesc.get('baseType', '')); n += 1
            if fdesc and fdesc.get('tag') == 'DW_TAG_structure_type' and fdesc.get('name'):
                return fdesc['name'].strip('"')
            if fdesc:
                return None
        return None

def get(prog):
    e = prog.__dict__.get('_eff')
    if e is None:
        e = Effects(prog)
        prog._eff = e
    return e
